#!/usr/bin/env python3
"""Discovery aid (not a registered check): classic mutation operators over the anchored Python files.

stage 1: every mutant is given to the quick checks of the properties anchored in its file (in-memory override, nothing is
         written); mutants on which every such check stays silent go on,
stage 2: those are written into a scratch worktree and the relevant test files are run with -x, then the full suite;
         what survives both is printed for triage (equivalent / harmless / a violation the rules miss).

usage: tools_mutants.py stage1 [files...]   -> /tmp/mutants_stage1.json
       tools_mutants.py stage2 [-j N]       -> /tmp/mutants_survivors.json
"""
import ast, copy, json, os, pathlib, subprocess, sys, concurrent.futures as cf
sys.path.insert(0, '/verif')
REPO = '/repo'
ANCH = {}
for l in open('/verif/properties.jsonl'):
    d = json.loads(l)
    for f in d['anchors'].get('files', []):
        if f.endswith('.py') and d['id'] != 'C10':
            ANCH.setdefault(f, []).append(d['id'])
ANCH = {f: ps for f, ps in ANCH.items() if ps}

CMP = {ast.Lt: ast.LtE, ast.LtE: ast.Lt, ast.Gt: ast.GtE, ast.GtE: ast.Gt, ast.Eq: ast.NotEq, ast.NotEq: ast.Eq,
       ast.Is: ast.IsNot, ast.IsNot: ast.Is, ast.In: ast.NotIn, ast.NotIn: ast.In}
BIN = {ast.Add: ast.Sub, ast.Sub: ast.Add, ast.Mult: ast.Div, ast.Div: ast.Mult, ast.FloorDiv: ast.Div}


def mutants_of(src):
    """yield (description, new source)"""
    tree = ast.parse(src)
    nodes = list(ast.walk(tree))
    docs = set()
    for n in nodes:
        if isinstance(n, (ast.FunctionDef, ast.ClassDef, ast.Module)) and n.body and isinstance(n.body[0], ast.Expr) \
                and isinstance(getattr(n.body[0], 'value', None), ast.Constant) and isinstance(n.body[0].value.value, str):
            docs.add(id(n.body[0]))
    infunc = set()
    for n in nodes:
        if isinstance(n, ast.FunctionDef):
            for x in ast.walk(n):
                infunc.add(id(x))

    def emit(desc, node, mutate, undo):
        mutate()
        try:
            ast.fix_missing_locations(tree)
            out = ast.unparse(tree)
        finally:
            undo()
        return ('%s@%d' % (desc, getattr(node, 'lineno', 0)), out)
    for n in nodes:
        if id(n) not in infunc:
            continue
        if isinstance(n, ast.Compare) and len(n.ops) == 1 and type(n.ops[0]) in CMP:
            old = n.ops[0]
            yield emit('cmp:%s->%s' % (type(old).__name__, CMP[type(old)].__name__), n,
                       lambda n=n, old=old: n.ops.__setitem__(0, CMP[type(old)]()), lambda n=n, old=old: n.ops.__setitem__(0, old))
        if isinstance(n, ast.AugAssign):
            if type(n.op) in (ast.Add, ast.Sub):
                old = n.op
                new = ast.Sub() if isinstance(old, ast.Add) else ast.Add()
                yield emit('aug:%s->%s' % (type(old).__name__, type(new).__name__), n,
                           lambda n=n, new=new: setattr(n, 'op', new), lambda n=n, old=old: setattr(n, 'op', old))
        if isinstance(n, ast.BinOp) and type(n.op) in BIN:
            old = n.op
            yield emit('bin:%s->%s' % (type(old).__name__, BIN[type(old)].__name__), n,
                       lambda n=n, old=old: setattr(n, 'op', BIN[type(old)]()), lambda n=n, old=old: setattr(n, 'op', old))
        if isinstance(n, ast.BoolOp):
            old = n.op
            new = ast.Or() if isinstance(old, ast.And) else ast.And()
            yield emit('bool:%s->%s' % (type(old).__name__, type(new).__name__), n,
                       lambda n=n, new=new: setattr(n, 'op', new), lambda n=n, old=old: setattr(n, 'op', old))
        if isinstance(n, ast.UnaryOp) and isinstance(n.op, ast.Not):
            # not x -> x : replace by wrapping in bool()
            old = (n.op, n.operand)
            yield emit('not-removed', n, lambda n=n: setattr(n, 'op', ast.UAdd()) or setattr(n, 'operand', ast.Call(
                func=ast.Name(id='bool', ctx=ast.Load()), args=[old[1]], keywords=[])),
                lambda n=n, old=old: (setattr(n, 'op', old[0]), setattr(n, 'operand', old[1])))
        if isinstance(n, (ast.If, ast.While)) and not isinstance(n.test, ast.Constant):
            old = n.test
            yield emit('cond-negated', n, lambda n=n, old=old: setattr(n, 'test', ast.UnaryOp(op=ast.Not(), operand=old)),
                       lambda n=n, old=old: setattr(n, 'test', old))
        if isinstance(n, ast.Constant) and not isinstance(n.value, str) and id(n) in infunc:
            old = n.value
            for new in ({0: [1], 1: [0, 2], 2: [1], True: [False], False: [True], None: [0]}.get(old, []) if not isinstance(old, float) or old in (0., 1.) else []):
                if type(new) is not type(old) and not (old is None):
                    if isinstance(old, bool) != isinstance(new, bool):
                        continue
                yield emit('const:%r->%r' % (old, new), n, lambda n=n, new=new: setattr(n, 'value', new),
                           lambda n=n, old=old: setattr(n, 'value', old))
        if isinstance(n, ast.Call) and len(n.args) == 2 and not n.keywords and not any(isinstance(a, ast.Starred) for a in n.args) \
                and ast.dump(n.args[0]) != ast.dump(n.args[1]):
            yield emit('args-swapped', n, lambda n=n: n.args.reverse(), lambda n=n: n.args.reverse())
        # statement deletion
        for field in ('body', 'orelse', 'finalbody'):
            lst = getattr(n, field, None)
            if isinstance(lst, list) and lst and isinstance(lst[0], ast.stmt) and not isinstance(n, (ast.Module, ast.ClassDef)):
                for i, st in enumerate(list(lst)):
                    if id(st) in docs or not isinstance(st, (ast.Expr, ast.Assign, ast.AugAssign, ast.Return, ast.Raise, ast.Continue, ast.Break)):
                        continue
                    if isinstance(st, ast.Assign) and len(lst) > 1 and any(isinstance(t, ast.Name) for t in st.targets):
                        continue        # deleting a name binding mostly gives NameError: not interesting
                    repl = ast.Pass()

                    def mut(lst=lst, i=i, repl=repl):
                        lst[i] = repl

                    def und(lst=lst, i=i, st=st):
                        lst[i] = st
                    yield emit('del:%s' % type(st).__name__, st, mut, und)
        if isinstance(n, ast.AugAssign) and isinstance(n.target, (ast.Subscript, ast.Attribute, ast.Name)):
            # x op= v  ->  x = v
            pass


def stage1_job(args):
    from qvstatic import cli
    rel, desc, new = args
    try:
        compile(new, rel, 'exec')
    except SyntaxError:
        return None
    fired = {}
    for p in ANCH[rel]:
        code, ctx, findings = cli.run(p, 'quick', REPO, overrides={rel: new}, write=False, quiet=True)
        if code:
            fired[p] = code
            break
    return (rel, desc, bool(fired), fired)


def stage1(files):
    todo = []
    for rel in files:
        src = (pathlib.Path(REPO) / rel).read_text()
        seen = set()
        for desc, new in mutants_of(src):
            if new in seen:
                continue
            seen.add(new)
            todo.append((rel, desc, new))
    print(len(todo), 'mutants')
    res = []
    with cf.ProcessPoolExecutor(max_workers=int(os.environ.get('J', '12'))) as ex:
        for r, t in zip(ex.map(stage1_job, todo, chunksize=4), todo):
            if r is not None:
                res.append(dict(file=r[0], desc=r[1], detected=r[2], fired=r[3], new=None if r[2] else t[2]))
    det = sum(1 for r in res if r['detected'])
    print('static: detected', det, 'silent', len(res) - det)
    json.dump(res, open('/tmp/mutants_stage1.json', 'w'))


def tests_for(rel):
    b = pathlib.Path(rel).name.lstrip('_')[:-3]
    m = {'qubovert/_pcbo.py': ['tests/test_pcbo.py', 'tests/test_pcso.py', 'tests/sat/test_sat.py'],
         'qubovert/_pcso.py': ['tests/test_pcso.py'], 'qubovert/_pubo.py': ['tests/test_pubo.py', 'tests/test_pcbo.py'],
         'qubovert/_puso.py': ['tests/test_puso.py', 'tests/test_pcso.py'], 'qubovert/_qubo.py': ['tests/test_qubo.py'],
         'qubovert/_quso.py': ['tests/test_quso.py'], 'qubovert/sat/_satisfiability.py': ['tests/sat/test_sat.py'],
         'qubovert/sim/_anneal.py': ['tests/sim/test_anneal.py'], 'qubovert/sim/_anneal_results.py': ['tests/sim/test_anneal_results.py'],
         'qubovert/sim/_anneal_temperature_range.py': ['tests/sim/test_anneal_temperature_range.py'],
         'qubovert/utils/_dict_arithmetic.py': ['tests/utils/test_dictarithmetic.py', 'tests/utils/test_pubomatrix.py', 'tests/test_pubo.py'],
         'qubovert/utils/_bo_parentclass.py': ['tests/test_pubo.py', 'tests/test_qubo.py', 'tests/test_puso.py'],
         'qubovert/utils/_pubomatrix.py': ['tests/utils/test_pubomatrix.py', 'tests/test_pubo.py'],
         'qubovert/utils/_pusomatrix.py': ['tests/utils/test_pusomatrix.py', 'tests/test_puso.py'],
         'qubovert/utils/_qubomatrix.py': ['tests/utils/test_qubomatrix.py', 'tests/test_qubo.py'],
         'qubovert/utils/_qusomatrix.py': ['tests/utils/test_qusomatrix.py', 'tests/test_quso.py'],
         'qubovert/problems/_problem_parentclass.py': ['tests/problems/test_problemparentclass.py']}
    if rel in m:
        return m[rel]
    t = 'tests/utils/test_%s.py' % b
    return [t] if (pathlib.Path(REPO) / t).exists() else []


BASE_FAIL = "2 failed, 398 passed"


def stage2_job(args):
    wt, items = args
    out = []
    env = dict(os.environ, PYTHONPATH=wt)
    for it in items:
        rel = it['file']
        p = pathlib.Path(wt) / rel
        orig = p.read_text()
        p.write_text(it['new'])
        try:
            tf = tests_for(rel)
            ok = True
            if tf:
                r = subprocess.run(['/venv/bin/python', '-m', 'pytest', '-x', '-q', '-p', 'no:cacheprovider',
                                    '--deselect', 'tests/utils/test_subgraph.py::test_subgraph', '--deselect', 'tests/utils/test_subgraph.py::test_subvalue'] + tf,
                                   cwd=wt, env=env, capture_output=True, text=True, timeout=600)
                ok = r.returncode == 0
            if ok:
                r = subprocess.run(['/venv/bin/python', '-m', 'pytest', '-x', '-q', '-p', 'no:cacheprovider',
                                    '--deselect', 'tests/utils/test_subgraph.py::test_subgraph', '--deselect', 'tests/utils/test_subgraph.py::test_subvalue'],
                                   cwd=wt, env=env, capture_output=True, text=True, timeout=1200)
                ok = r.returncode == 0
            if ok:
                out.append(dict(file=rel, desc=it['desc']))
        except subprocess.TimeoutExpired:
            pass
        finally:
            p.write_text(orig)
    return out


def stage2(jobs):
    res = [r for r in json.load(open('/tmp/mutants_stage1.json')) if not r['detected']]
    print(len(res), 'statically silent mutants to test')
    wts = []
    for i in range(jobs):
        wt = '/tmp/mt/w%d' % i
        if not os.path.isdir(wt):
            subprocess.run(['git', '-C', REPO, 'worktree', 'add', '--detach', '-q', wt], check=True)
            for so in pathlib.Path(REPO, 'qubovert/sim').glob('*.so'):
                subprocess.run(['cp', str(so), wt + '/qubovert/sim/'])
        wts.append(wt)
    chunks = [(wts[i], res[i::jobs]) for i in range(jobs)]
    surv = []
    with cf.ThreadPoolExecutor(max_workers=jobs) as ex:
        for o in ex.map(stage2_job, chunks):
            surv += o
    json.dump(surv, open('/tmp/mutants_survivors.json', 'w'), indent=1)
    print(len(surv), 'survive the static checks and the test suite:')
    for s_ in surv:
        print('  ', s_['file'], s_['desc'])
    for wt in wts:
        subprocess.run(['git', '-C', REPO, 'worktree', 'remove', '--force', wt])


if __name__ == '__main__':
    if sys.argv[1] == 'stage1':
        stage1(sys.argv[2:] or sorted(ANCH))
    else:
        j = int(sys.argv[sys.argv.index('-j') + 1]) if '-j' in sys.argv else 6
        stage2(j)
