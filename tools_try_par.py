#!/usr/bin/env python3
"""Parallel regression helper: every seeded change (must fire its own property's check) and every benign patch (all checks
silent), each applied to one of N scratch worktrees of /repo under /tmp/wtp and checked there with `--repo` (evidence is
not written).  The canonical single-patch procedure (apply to /repo itself, check, revert) is tools_try_seeds.py /
tools_try_refactors.py; this helper only saves time.  usage: tools_try_par.py [seeds|benign|all] [-j N]"""
import json, pathlib, subprocess, sys, concurrent.futures as cf, os, queue
N = 12
if '-j' in sys.argv:
    N = int(sys.argv[sys.argv.index('-j') + 1])
what = ([a for a in sys.argv[1:] if a in ('seeds', 'benign', 'all')] or ['all'])[0]
WT = pathlib.Path('/tmp/wtp')
WT.mkdir(exist_ok=True)
man = json.load(open('/verif/MANIFEST.json'))
claimed = [c['property_id'] for c in man['checks']]
pool = queue.Queue()
for i in range(N):
    d = WT / str(i)
    if not d.exists():
        subprocess.run(['git', '-C', '/repo', 'worktree', 'add', '--detach', str(d), 'HEAD'], capture_output=True, check=True)
    subprocess.run(['git', '-C', str(d), 'checkout', '-q', '--detach', subprocess.run(['git', '-C', '/repo', 'rev-parse', 'HEAD'], capture_output=True, text=True).stdout.strip()], capture_output=True)
    subprocess.run(['git', '-C', str(d), 'checkout', '--', '.'], capture_output=True)
    pool.put(d)


def check(d, prop):
    o = subprocess.run(['python3', '-B', '-c',
                        "import sys; sys.path.insert(0,'/verif')\nfrom qvstatic import cli\n"
                        "code, ctx, findings = cli.run(%r, 'quick', %r, None, None, False, True)\n"
                        "print(code, sorted({f.get('rule') for f in findings if not f.get('ok', False)}))" % (prop, str(d))],
                       capture_output=True, text=True, cwd='/verif')
    out = o.stdout.strip().splitlines()
    return out[-1] if out else 'ERR ' + o.stderr[-200:]


def job(item):
    kind, path = item
    d = pool.get()
    try:
        r = subprocess.run(['git', '-C', str(d), 'apply', str(path / 'patch.diff')], capture_output=True, text=True)
        if r.returncode:
            return (kind, path.name, 'PATCH DOES NOT APPLY')
        if kind == 'seed':
            prop = json.load(open(path / 'meta.json'))['property']
            res = check(d, prop)
            if '--record' in sys.argv and res.startswith('1 '):
                import ast as _ast
                m = json.load(open(path / 'meta.json'))
                m['detected_by'] = {'check': prop, 'exit': 1, 'rules': _ast.literal_eval(res[2:])}
                json.dump(m, open(path / 'meta.json', 'w'), indent=1)
            return (kind, path.name, res if res.startswith('1 ') else 'MISSED: ' + res)
        bad = {}
        for p in claimed:
            res = check(d, p)
            if not res.startswith('0 '):
                bad[p] = res
        return (kind, path.name, 'silent' if not bad else 'ALARM: %s' % bad)
    finally:
        subprocess.run(['git', '-C', str(d), 'checkout', '--', '.'], capture_output=True)
        subprocess.run(['git', '-C', str(d), 'clean', '-fdq'], capture_output=True)
        pool.put(d)


items = []
if what in ('seeds', 'all'):
    items += [('seed', p) for p in sorted(pathlib.Path('/verif/seeded').iterdir()) if p.is_dir()]
if what in ('benign', 'all'):
    items += [('benign', p) for p in sorted(pathlib.Path('/verif/seeded_benign').iterdir()) if p.is_dir()]
bad = 0
with cf.ThreadPoolExecutor(max_workers=N) as ex:
    for kind, name, res in ex.map(job, items):
        okay = res.startswith('1 ') if kind == 'seed' else res == 'silent'
        if not okay:
            bad += 1
            print(kind, name, res)
print('%d items, %d not as expected' % (len(items), bad))
for i in range(N):
    subprocess.run(['git', '-C', '/repo', 'worktree', 'remove', '--force', str(WT / str(i))], capture_output=True)
sys.exit(1 if bad else 0)
