#!/usr/bin/env python3
"""Discovery aid (not a registered check): mutation operators over the C sources of the annealing extension.

stage1: every mutant is given to the quick checks C11, C12, C17 (in-memory override of the C file),
stage2: the statically silent ones are built in a scratch worktree and the sim tests + full suite are run.
usage: tools_cmutants.py stage1 ; tools_cmutants.py stage2 [-j N]
"""
import json, os, pathlib, re, subprocess, sys, concurrent.futures as cf
sys.path.insert(0, '/verif')
REPO = '/repo'
FILES = ['qubovert/sim/src/anneal_quso.c', 'qubovert/sim/src/anneal_puso.c', 'qubovert/sim/_canneal.c', 'qubovert/sim/src/random.c']
PROPS = ['C11', 'C12', 'C17']

OPS = [
    (r'(?<![<>=!\-+*/&|])<=(?!=)', '<', 'le->lt'), (r'(?<![<>=!\-+*/&|<])<(?![<=])', '<=', 'lt->le'),
    (r'(?<![<>=!\-+*/&|])>=(?!=)', '>', 'ge->gt'), (r'(?<![<>=!\-+*/&|>\-])>(?![>=])', '>=', 'gt->ge'),
    (r'==', '!=', 'eq->ne'), (r'!=', '==', 'ne->eq'),
    (r'&&', '||', 'and->or'), (r'\|\|', '&&', 'or->and'),
    (r'\+=', '-=', 'addeq->subeq'), (r'-=', '+=', 'subeq->addeq'), (r'\*=', '/=', 'muleq->diveq'),
    (r'(?<![+\-eE(,=*/<>&|!?:\s])\s*\+\s*(?![+=])', ' - ', 'plus->minus'),
    (r'(?<![+\-eE(,=*/<>&|!?:\s])\s+-\s+(?![\-=>])', ' + ', 'minus->plus'),
    (r'(?<![\w.])0(?![\w.])', '1', '0->1'), (r'(?<![\w.])1(?![\w.])', '0', '1->0'), (r'(?<![\w.])2(?![\w.])', '1', '2->1'),
    (r'(?<![\w.])-1(?![\w.])', '1', '-1->1'),
]


def code_lines(text):
    """indices of lines that are code inside function bodies (not comments / preprocessor / blank), with the code part"""
    out = []
    inblock = False
    depth = 0
    for i, ln in enumerate(text.split('\n')):
        s = ln
        if inblock:
            if '*/' in s:
                inblock = False
            continue
        if '/*' in s:
            if '*/' not in s[s.index('/*'):]:
                inblock = True
            s = s[:s.index('/*')]
        code = s.split('//')[0]
        d0 = depth
        depth += code.count('{') - code.count('}')
        if code.strip().startswith('#') or not code.strip():
            continue
        if d0 >= 1 or depth >= 1:
            out.append((i, len(code)))
    return out


def mutants_of(text):
    lines = text.split('\n')
    seen = set()
    for i, clen in code_lines(text):
        ln = lines[i]
        code = ln[:clen]
        if 'PyArg_ParseTuple' in code or 'include' in code or code.strip().startswith(('static', 'void', 'double', 'int ', 'long', 'PyObject *c_', 'PyMODINIT')) and code.rstrip().endswith('('):
            continue
        for pat, rep, name in OPS:
            for m in re.finditer(pat, code):
                if '"' in code[:m.start()] and code[:m.start()].count('"') % 2 == 1:
                    continue            # inside a string literal
                new = code[:m.start()] + rep + code[m.end():] + ln[clen:]
                if new == ln:
                    continue
                t = '\n'.join(lines[:i] + [new] + lines[i + 1:])
                if t not in seen:
                    seen.add(t)
                    yield ('%s@%d' % (name, i + 1), t)
        st = code.strip()
        if st.endswith(';') and not re.match(r'^(int|long|double|float|char|unsigned|const|static|PyObject|rng_t|pcg32_random_t|return|break|continue|goto)\b', st) \
                and '{' not in st and '}' not in st and ('=' in st or '(' in st or '++' in st or '--' in st):
            t = '\n'.join(lines[:i] + [ln[:len(ln) - len(ln.lstrip())] + ';' + ln[clen:]] + lines[i + 1:])
            if t not in seen:
                seen.add(t)
                yield ('del@%d' % (i + 1), t)


def stage1_job(args):
    from qvstatic import cli
    rel, desc, new = args
    for p in PROPS:
        try:
            code, ctx, findings = cli.run(p, 'quick', REPO, c_overrides={rel: new}, write=False, quiet=True)
        except Exception:
            code = 2
        if code:
            return (rel, desc, True, {p: code})
    return (rel, desc, False, {})


def stage1():
    todo = []
    for rel in FILES:
        text = (pathlib.Path(REPO) / rel).read_text()
        for desc, new in mutants_of(text):
            todo.append((rel, desc, new))
    print(len(todo), 'C mutants')
    res = []
    with cf.ProcessPoolExecutor(max_workers=int(os.environ.get('J', '12'))) as ex:
        for r, t in zip(ex.map(stage1_job, todo, chunksize=2), todo):
            res.append(dict(file=r[0], desc=r[1], detected=r[2], fired=r[3], new=None if r[2] else t[2]))
    det = sum(1 for r in res if r['detected'])
    err = sum(1 for r in res if r['detected'] and 2 in r['fired'].values())
    print('static: detected', det, '(of which analysis errors / do not compile: %d)' % err, 'silent', len(res) - det)
    json.dump(res, open('/tmp/cmutants_stage1.json', 'w'))


def stage2_job(args):
    wt, items = args
    out = []
    env = dict(os.environ, PYTHONPATH=wt)
    for it in items:
        p = pathlib.Path(wt) / it['file']
        orig = p.read_text()
        p.write_text(it['new'])
        try:
            b = subprocess.run(['/venv/bin/python', 'setup.py', 'build_ext', '--inplace'], cwd=wt, env=env, capture_output=True, text=True, timeout=600)
            if b.returncode:
                continue
            r = subprocess.run(['/venv/bin/python', '-m', 'pytest', '-x', '-q', '-p', 'no:cacheprovider', 'tests/sim'], cwd=wt, env=env,
                               capture_output=True, text=True, timeout=900)
            if r.returncode == 0:
                out.append(dict(file=it['file'], desc=it['desc']))
        except subprocess.TimeoutExpired:
            pass
        finally:
            p.write_text(orig)
    subprocess.run(['/venv/bin/python', 'setup.py', 'build_ext', '--inplace'], cwd=wt, env=env, capture_output=True, text=True)
    return out


def stage2(jobs):
    res = [r for r in json.load(open('/tmp/cmutants_stage1.json')) if not r['detected']]
    print(len(res), 'statically silent C mutants to build and test')
    wts = []
    for i in range(jobs):
        wt = '/tmp/mt/c%d' % i
        if not os.path.isdir(wt):
            subprocess.run(['git', '-C', REPO, 'worktree', 'add', '--detach', '-q', wt], check=True)
        wts.append(wt)
    chunks = [(wts[i], res[i::jobs]) for i in range(jobs)]
    surv = []
    with cf.ThreadPoolExecutor(max_workers=jobs) as ex:
        for o in ex.map(stage2_job, chunks):
            surv += o
    json.dump(surv, open('/tmp/cmutants_survivors.json', 'w'), indent=1)
    print(len(surv), 'survive the static checks and the sim tests:')
    for s_ in surv:
        print('  ', s_['file'], s_['desc'])
    for wt in wts:
        subprocess.run(['git', '-C', REPO, 'worktree', 'remove', '--force', wt])


if __name__ == '__main__':
    if sys.argv[1] == 'stage1':
        stage1()
    else:
        j = int(sys.argv[sys.argv.index('-j') + 1]) if '-j' in sys.argv else 6
        stage2(j)
