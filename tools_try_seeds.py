#!/usr/bin/env python3
"""Apply each seeded change to /repo, run the quick check(s), undo. usage: tools_try_seeds.py [ids...] [--all-props]"""
import json, pathlib, subprocess, sys
ROOT = pathlib.Path('/verif/seeded')
ids = [a for a in sys.argv[1:] if not a.startswith('-')] or sorted(p.name for p in ROOT.iterdir() if p.is_dir())
man = json.load(open('/verif/MANIFEST.json'))
claimed = [c['property_id'] for c in man['checks']]
for i in ids:
    d = ROOT / i
    meta = json.load(open(d / 'meta.json'))
    st = subprocess.run(['git', '-C', '/repo', 'status', '--porcelain'], capture_output=True, text=True).stdout
    assert not st.strip(), "repo dirty: " + st
    r = subprocess.run(['git', '-C', '/repo', 'apply', str(d / 'patch.diff')], capture_output=True, text=True)
    if r.returncode:
        print(i, 'PATCH DOES NOT APPLY', r.stderr[:200]); continue
    try:
        props = claimed if '--all-props' in sys.argv else [meta['property']]
        res = {}
        for p in props:
            if p not in claimed:
                res[p] = 'unclaimed'; continue
            o = subprocess.run(['./check', p], cwd='/verif', capture_output=True, text=True)
            rules = sorted({l.split()[1] for l in o.stdout.splitlines() if l.strip().startswith('rule ')})
            res[p] = (o.returncode, rules)
            if o.returncode == 2:
                res[p] = (2, [l for l in o.stdout.splitlines() if 'ANALYSIS-ERROR' in l][:1])
        print(i, meta['property'], {k: v for k, v in res.items() if v != (0, [])} or 'MISSED (all silent)')
    finally:
        subprocess.run(['git', '-C', '/repo', 'checkout', '--', '.'])
        subprocess.run(['git', '-C', '/repo', 'clean', '-fdq', '--', 'qubovert'])
subprocess.run(['git', '-C', '/verif', 'checkout', '--', 'evidence'], capture_output=True)
